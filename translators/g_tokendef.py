"""G1: token definitions (implements/syntax/tranp/token.py TokenDefinition, TokenTypes numbering, special
symbols) and the grammar tokenizer's definition (data/syntax/gram_tokenizer.py), read by instantiation."""
from common import *


def dump(name, d, TokenTypes, TokenDomains):
    body = 'Definition %s : tokdef := {|\n' % name
    body += '  analyze_order := %s;\n' % clist(str(x.value) for x in d.analyze_order)
    body += '  white_space := %s;\n  number := %s;\n  identifier := %s;\n  symbol := %s;\n' % (cstr(d.white_space), cstr(d.number), cstr(d.identifier), cstr(d.symbol))
    body += '  comment := %s;\n' % clist('(%s, %s)' % (cstr(p['open']), cstr(p['close'])) for p in d.comment)
    body += '  quote := %s;\n' % clist('(%s, %s)' % (cstr(p['open']), cstr(p['close'])) for p in d.quote)
    body += '  combined_symbols := %s;\n' % clist(cstr(x) for x in d.combined_symbols)
    body += '  post_filters := %s\n|}.\n' % clist('(%d, %s)' % (t.value, cstr(p)) for t, p in d.post_filters)
    return body


@fail_closed('GenTokenDef')
def main():
    from rogw.tranp.implements.syntax.tranp.token import TokenDefinition, TokenTypes, TokenDomains, SpecialSymbols, Token
    from rogw.tranp.implements.syntax.tranp.tokenizer import Tokenizer
    from rogw.tranp.app.dir import tranp_dir
    import importlib.util
    d = TokenDefinition()
    # regular-expression post filters are modelled as never emptying a white space token: the pattern must
    # have a mandatory literal character that is not white space (read from CPython's own regex parser)
    import re
    for ty, pat in d.post_filters:
        if pat not in ('*', TokenDefinition.MatchBeginOrEnd):
            items = list(re._parser.parse(pat))
            assert any(str(op) == 'LITERAL' and chr(arg) not in d.white_space for op, arg in items), 'unexpected post filter pattern %r' % pat
    assert all(isinstance(x, TokenDomains) for x in d.analyze_order)
    spec = importlib.util.spec_from_file_location('gram_tokenizer', os.path.join(tranp_dir(), 'data/syntax/gram_tokenizer.py'))
    mod = importlib.util.module_from_spec(spec)
    spec.loader.exec_module(mod)
    g = mod.gram_tokenizer()._definition
    body = 'From Tranp Require Import Model.LexerTypes.\n'
    body += dump('py_tokdef', d, TokenTypes, TokenDomains) + dump('gram_tokdef', g, TokenTypes, TokenDomains)
    names = ['WhiteSpace', 'LineBreak', 'EOF', 'NewLine', 'Indent', 'Dedent', 'Comment', 'String', 'Regexp', 'Digit', 'Decimal', 'Name', 'Minus',
             'BeginCombine', 'ParenL', 'ParenR', 'BraceL', 'BraceR', 'BracketL', 'BracketR']
    for n in names:
        body += 'Definition T_%s : nat := %d.\n' % (n, TokenTypes[n].value)
    body += 'Definition symbol_base : nat := %d.\n' % (TokenDomains.Symbol.value << 4)
    body += 'Definition domain_max : nat := %d.\n' % TokenDomains.Max.value
    for n in ['Indent', 'Dedent', 'EOF', 'OpUnaryMinus']:
        body += 'Definition S_%s : list ascii := %s.\n' % (n, cstr(SpecialSymbols[n].value))
    body += 'Definition match_begin_or_end : list ascii := %s.\n' % cstr(TokenDefinition.MatchBeginOrEnd)
    # the symbol a '-' maps to must be TokenTypes.Minus: checked in Coq (Properties/C13.v)
    emit('GenTokenDef', 'g_tokendef.py', 'rogw/tranp/implements/syntax/tranp/token.py + data/syntax/gram_tokenizer.py (instantiated)', body)


if __name__ == '__main__':
    main()
