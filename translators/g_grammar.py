"""G3: data/grammar.lark through lark's own loader: every tag that can name a tree or token entry
(rule origins, aliases, terminal names, the empty placeholder), and the compiled rule table
(origin, expansion, alias, options) used by the ladder extraction of C02."""
from common import *


@fail_closed('GenGrammar')
def main():
    import lark
    from lark.indenter import PythonIndenter
    from rogw.tranp.app.dir import tranp_dir
    from rogw.tranp.syntax.ast.entry import EntryOfDict
    text = open(os.path.join(tranp_dir(), 'data/grammar.lark')).read()
    parser = lark.Lark(text, start='file_input', parser='lalr', postlex=PythonIndenter(), propagate_positions=True)
    tags = []
    for r in parser.rules:
        for n in (r.origin.name.value if hasattr(r.origin.name, 'value') else str(r.origin.name), r.alias):
            if n and n not in tags:
                tags.append(str(n))
    for t in parser.terminals:
        if t.name not in tags:
            tags.append(t.name)
    empty = EntryOfDict(None).empty_name
    if empty not in tags:
        tags.append(empty)
    assert len(tags) > 100
    body = 'Definition grammar_tags : list (list ascii) := [\n  ' + ';\n  '.join(cstr(t) for t in tags) + '].\n'
    body += 'Example grammar_tags_len : length grammar_tags = %d. Proof. reflexivity. Qed.\n' % len(tags)
    emit('GenGrammar', 'g_grammar.py', 'data/grammar.lark (via lark.Lark(...).rules / .terminals)', body)


if __name__ == '__main__':
    main()
