"""G6: operator typing data for C03 - the dunder methods of the builtin stub classes in
rogw/tranp/compatible/libralies/classes.py (parameter types, return type; read with Python's ast), the
operator -> dunder table and the set of 'arithmetical' operators of PythonClassOperations."""
import ast
from common import *


@fail_closed('GenOpTable')
def main():
    from rogw.tranp.app.dir import tranp_dir
    from rogw.tranp.syntax.node.definition.accessible import PythonClassOperations
    path = os.path.join(tranp_dir(), 'rogw/tranp/compatible/libralies/classes.py')
    tree = ast.parse(open(path).read())
    wanted = {'int', 'float', 'bool', 'str', 'list'}
    classes = []
    for node in tree.body:
        if not isinstance(node, ast.ClassDef):
            continue
        actual = [d.args[0].value for d in node.decorator_list if isinstance(d, ast.Call) and getattr(d.func, 'id', '') == '__actual__']
        if not actual or actual[0] not in wanted:
            continue
        assert not [b for b in node.bases if ast.unparse(b).split('[')[0] not in ('Sequence',)], 'unexpected base class of ' + node.name
        methods = []
        for m in node.body:
            if not isinstance(m, ast.FunctionDef) or not (m.name.startswith('__') and m.name.endswith('__')):
                continue
            params = m.args.args[1:]
            if len(params) != 1 or m.returns is None:
                continue
            anno = params[0].annotation

            def names(a):
                if isinstance(a, ast.BinOp) and isinstance(a.op, ast.BitOr):
                    return names(a.left) + names(a.right)
                return [ast.unparse(a)]
            ptypes = [actual[0] if n == 'Self' else n for n in names(anno)]
            ret = ast.unparse(m.returns)
            ret = 'Self' if ret in ('Self', 'list[T_Value]') and actual[0] in ('int', 'float', 'list') and ret != 'int' else ret
            methods.append((m.name, ptypes, ret))
        classes.append((actual[0], methods))
    assert {c for c, _ in classes} == wanted, 'missing builtin stub classes: %s' % (wanted - {c for c, _ in classes})
    ops = PythonClassOperations()
    table = getattr(PythonClassOperations, '_PythonClassOperations__operators')
    assert isinstance(table, dict) and '+' in table
    body = '(* class -> [(dunder, parameter types (Self resolved), return type (Self = the receiver type))] *)\n'
    body += 'Definition op_table : list (list ascii * list (list ascii * list (list ascii) * list ascii)) := [\n  ' + ';\n  '.join(
        '(%s, %s)' % (cstr(c), clist('(%s, %s, %s)' % (cstr(n), clist(cstr(p) for p in ps), cstr(r)) for n, ps, r in ms)) for c, ms in classes) + '].\n'
    body += 'Definition operator_dunder : list (list ascii * list ascii) := %s.\n' % clist('(%s, %s)' % (cstr(k), cstr(v)) for k, v in table.items())
    body += 'Definition arithmetical_ops : list (list ascii) := %s.\n' % clist(cstr(k) for k in table if ops.arthmetical(k))
    emit('GenOpTable', 'g_optable.py', 'rogw/tranp/compatible/libralies/classes.py, rogw/tranp/syntax/node/definition/accessible.py', body)


if __name__ == '__main__':
    main()
