"""G5: node schema by introspection: resolver mapping in registration order (tag -> ordered class list),
per class: ITerminal / IScope / IDomain flags, prop_keys() and list/single per property (return annotation)."""
from common import *


@fail_closed('GenNodeSchema')
def main():
    from rogw.tranp.providers.syntax.resolver import symbol_mapping
    from rogw.tranp.syntax.node.behavior import ITerminal, IScope, IDomain
    from rogw.tranp.syntax.node.node import Node
    m = symbol_mapping()
    classes = []
    order = []
    for cls, tags in m.symbols.items():
        assert issubclass(cls, Node) and all(isinstance(t, str) for t in tags)
        classes.append(cls)
        for t in tags:
            order.append((t, cls.__name__))
    fb = m.fallback
    if fb is not None and fb not in classes:
        classes.append(fb)
    rows = []
    for cls in classes:
        props = []
        for k in cls.prop_keys():
            anno = getattr(cls, k).fget.__annotations__['return']
            is_list = hasattr(anno, '__origin__') and anno.__origin__ is list
            props.append('(%s, %s)' % (cstr(k), 'true' if is_list else 'false'))
        rows.append('(%s, %s, %s)' % (cstr(cls.__name__), 'true' if issubclass(cls, ITerminal) else 'false', clist(props)))
    body = '(* class name, ITerminal?, expandable properties in prop_keys() order with list? flag *)\n'
    body += 'Definition node_schema : list (list ascii * bool * list (list ascii * bool)) := [\n  ' + ';\n  '.join(rows) + '].\n'
    body += 'Example node_schema_len : length node_schema = %d. Proof. reflexivity. Qed.\n' % len(rows)
    body += '(* tag -> class, in registration order (first accepting class wins) *)\n'
    body += 'Definition resolve_order : list (list ascii * list ascii) := [\n  ' + ';\n  '.join('(%s, %s)' % (cstr(t), cstr(c)) for t, c in order) + '].\n'
    body += 'Definition fallback_class : list ascii := %s.\n' % cstr(fb.__name__ if fb else '')
    emit('GenNodeSchema', 'g_nodeschema.py', 'rogw/tranp/providers/syntax/resolver.py + syntax/node/definition/*.py (introspection)', body)


if __name__ == '__main__':
    main()
