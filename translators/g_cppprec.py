"""G4: the operator tables py2cpp renders expressions with (C01): CppPrecedences (operand positions that get
parentheses) and the operator spellings of data/cpp/template/operation/binary_operator.j2 / unary handlers."""
import re
from common import *


@fail_closed('GenCppPrec')
def main():
    from rogw.tranp.app.dir import tranp_dir
    from rogw.tranp.implements.cpp.transpiler.py2cpp import CppPrecedences
    table = getattr(CppPrecedences, '_CppPrecedences__binaries')
    assert isinstance(table, dict) and table
    body = 'Definition tranp_cpp_binary_prec : list (list ascii * nat) := %s.\n' % clist('(%s, %d)' % (cstr(k.replace('.', ' ')), v) for k, v in table.items())
    body += 'Definition tranp_cpp_unary_prec : nat := %d.\nDefinition tranp_cpp_primary_prec : nat := %d.\nDefinition tranp_cpp_ternary_prec : nat := %d.\n' % (CppPrecedences.Unary, CppPrecedences.Primary, CppPrecedences.Ternary)
    # spellings: binary_operator.j2 renames is / is.not / and / or, everything else is emitted as written; on_not_compare emits `!`
    tpl = open(os.path.join(tranp_dir(), 'data/cpp/template/operation/binary_operator.j2')).read()
    renames = re.findall(r"operator == '([^']+)' -%\}\s*\n\{\{ left \}\} (\S+) \{\{ right \}\}", tpl)
    assert ('and', '&&') in renames and ('or', '||') in renames, renames
    assert re.search(r"\{%- else -%\}\s*\n\{\{ left \}\} \{\{ operator \}\} \{\{ right \}\}", tpl), 'default branch of binary_operator.j2 changed'
    un = open(os.path.join(tranp_dir(), 'data/cpp/template/operation/unary_operator.j2')).read().strip()
    assert un == '{{ operator }}{{ value }}', un
    body += 'Definition tranp_cpp_renames : list (list ascii * list ascii) := %s.\n' % clist('(%s, %s)' % (cstr(a.replace('.', ' ')), cstr(b)) for a, b in renames + [('not', '!')])
    emit('GenCppPrec', 'g_cppprec.py', 'rogw/tranp/implements/cpp/transpiler/py2cpp.py (CppPrecedences), data/cpp/template/operation/*.j2', body)


if __name__ == '__main__':
    main()
