"""G2: rule sets of tranp's own parsing engine. data/syntax/py_rules.py and gram_rules.py are read with
Python's ast (the argument of Rules.from_ast(...)), the .lark grammar texts as strings, and every regexp
terminal is translated to Base.Regex.re by walking CPython's own regex parse tree (re._parser)."""
from common import *
import ast as pyast
import re


def from_ast_arg(path):
    tree = pyast.parse(open(path).read())
    for node in pyast.walk(tree):
        if isinstance(node, pyast.Call) and isinstance(node.func, pyast.Attribute) and node.func.attr == 'from_ast':
            return pyast.literal_eval(node.args[0])
    raise ValueError('no Rules.from_ast(...) call in ' + path)


def ctree(t):
    name, body = t
    if isinstance(body, str):
        return '(TTok %s %s)' % (cstr(name), cstr(body))
    return '(TTree %s [%s])' % (cstr(name), '; '.join(ctree(c) for c in body))


CATS = {'CATEGORY_DIGIT': [(48, 57)], 'CATEGORY_WORD': [(48, 57), (65, 90), (95, 95), (97, 122)], 'CATEGORY_SPACE': [(9, 13), (32, 32)]}


def cre(items):
    """sre parse tree -> Coq term of type re"""
    out = []
    for op, arg in items:
        op = str(op)
        if op == 'LITERAL':
            out.append('(Cls false [(%d, %d)])' % (arg, arg))
        elif op == 'NOT_LITERAL':
            out.append('(Cls true [(%d, %d)])' % (arg, arg))
        elif op == 'ANY':
            out.append('(Cls true [(10, 10)])')
        elif op == 'IN':
            neg, ranges = False, []
            for o2, a2 in arg:
                o2 = str(o2)
                if o2 == 'NEGATE':
                    neg = True
                elif o2 == 'LITERAL':
                    ranges.append((a2, a2))
                elif o2 == 'RANGE':
                    ranges.append(tuple(a2))
                elif o2 == 'CATEGORY':
                    ranges.extend(CATS[str(a2)])
                else:
                    raise ValueError('unsupported class item %s' % o2)
            out.append('(Cls %s [%s])' % ('true' if neg else 'false', '; '.join('(%d, %d)' % r for r in ranges)))
        elif op == 'BRANCH':
            alts = [cre(list(b)) for b in arg[1]]
            term = alts[-1]
            for a in reversed(alts[:-1]):
                term = '(Alt %s %s)' % (a, term)
            out.append(term)
        elif op == 'MAX_REPEAT':
            lo, hi, sub = arg
            out.append('(repeat_re %d %s %s)' % (lo, 'None' if str(hi) == 'MAXREPEAT' else '(Some %d)' % hi, cre(list(sub))))
        elif op == 'SUBPATTERN':
            out.append(cre(list(arg[3])))
        else:
            raise ValueError('unsupported regex construct %s' % op)
    if not out:
        return 'Eps'
    term = out[-1]
    for a in reversed(out[:-1]):
        term = '(Cat %s %s)' % (a, term)
    return term


def regexps_of(t, acc):
    name, body = t
    if isinstance(body, str):
        if name == 'regexp':
            acc.append(body[1:-1])
    else:
        for c in body:
            regexps_of(c, acc)
    return acc


@fail_closed('GenRules')
def main():
    from rogw.tranp.app.dir import tranp_dir
    base = os.path.join(tranp_dir(), 'data/syntax')
    body = 'From Tranp Require Import Base.Regex Model.PegTypes.\n'
    pats = []
    for nm in ('gram', 'py'):
        t = from_ast_arg(os.path.join(base, nm + '_rules.py'))
        body += 'Definition %s_rules_ast : ttree := %s.\n' % (nm, ctree(t))
        regexps_of(t, pats)
        text = open(os.path.join(base, ('gram' if nm == 'gram' else 'py_gram') + '.lark')).read()
        assert all(ord(c) < 128 for c in text.encode('ascii', 'ignore').decode()) 
        text_ascii = ''.join(c if ord(c) < 128 else '?' for c in text)   # non-ASCII only occurs inside // comments
        for line in text.split('\n'):
            assert all(ord(c) < 128 for c in line) or line.lstrip().startswith('//'), 'non-ASCII outside a comment'
        body += 'Definition %s_lark_text : list ascii := %s.\n' % (nm, cstr(text_ascii))
    seen = []
    for p in pats:
        if p not in seen:
            seen.append(p)
    body += '(* every regexp terminal of the two rule sets, translated from re._parser.parse *)\n'
    body += 'Definition regex_table : list (list ascii * re) := [\n  ' + ';\n  '.join('(%s, %s)' % (cstr(p), cre(list(re._parser.parse(p)))) for p in seen) + '].\n'
    emit('GenRules', 'g_rules.py', 'data/syntax/{gram,py}_rules.py, gram.lark, py_gram.lark', body)


if __name__ == '__main__':
    main()
