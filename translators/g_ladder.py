"""G3b / G5: the operator ladder of data/grammar.lark (C02, C01), read from the grammar text:
every level from or_test down to primary with its kind (chain of binary operators / prefix level), the rule
(tree) name it produces and its operator words; and the order in which the node classes of function_def and
class_def are tried (providers/syntax/resolver.py)."""
import re
from common import *


@fail_closed('GenLadder')
def main():
    from rogw.tranp.app.dir import tranp_dir
    text = open(os.path.join(tranp_dir(), 'data/grammar.lark')).read()
    # join continuation lines (alternatives starting with `|`), drop comments
    rules: dict[str, str] = {}
    last = None
    for line in text.split('\n'):
        if line.startswith('//') or not line.strip():
            continue
        m = re.match(r'^([?!]?)([A-Za-z_]\w*)(\{\w+\})?\s*:\s*(.*)$', line)
        if m and not line[0].isspace():
            last = m.group(2)
            assert last not in rules, 'rule defined twice: ' + last
            rules[last] = (m.group(1), m.group(4).split('//')[0].strip())
        elif line[0].isspace() and line.strip().startswith('|') and last:
            flag, body = rules[last]
            rules[last] = (flag, body + ' ' + line.split('//')[0].strip())
        elif line.startswith('%'):
            last = None
        else:
            raise AssertionError('unexpected grammar line: ' + line)

    def words(opref: str) -> list[tuple[str, str]]:
        """operator rule -> [(operator words, alias or '')]"""
        flag, body = rules[opref]
        assert flag == '!', 'operator rule must keep its tokens: ' + opref
        out = []
        for alt in re.findall(r'(?:"[^"]*"|[^|"])+', body):
            alt = alt.strip()
            m = re.fullmatch(r'((?:"[^"]+"\s*)+)(?:->\s*(\w+))?', alt)
            assert m, 'unexpected operator alternative: %r in %s' % (alt, opref)
            out.append((' '.join(re.findall(r'"([^"]+)"', m.group(1))), m.group(2) or ''))
        return out

    levels = []
    cur = 'or_test'
    assert rules['expression'][1].startswith('or_test'), 'expression does not start at or_test'
    seen = set()
    while cur != 'primary':
        assert cur not in seen and len(seen) < 40
        seen.add(cur)
        flag, body = rules[cur]
        assert flag == '?', 'ladder rule is not inlined: ' + cur
        m = re.fullmatch(r'(\w+) \((\w+) (\w+)\)\*', body)
        if m:
            assert m.group(1) == m.group(3), body
            levels.append((cur, True, words(m.group(2))))
            cur = m.group(1)
            continue
        m = re.fullmatch(r'(\w+) (\w+) -> (\w+) \| (\w+)', body) or re.fullmatch(r'(\w+) (\w+)() \| (\w+)', body)
        if m:
            assert m.group(2) == cur, body
            levels.append((m.group(3) or cur, False, words(m.group(1))))
            cur = m.group(4)
            continue
        m = re.fullmatch(r'(\w+)', body)
        assert m, 'unexpected ladder rule: %s: %s' % (cur, body)
        cur = m.group(1)
    assert len(levels) >= 8
    body = '(* (tree name, is a chain of binary operators (false: prefix level), operators) from the loosest to the tightest level *)\n'
    body += 'Definition tranp_ladder : list (list ascii * bool * list (list ascii)) := [\n  ' + ';\n  '.join(
        '(%s, %s, %s)' % (cstr(n), 'true' if b else 'false', clist(cstr(w) for w, _ in ops)) for n, b, ops in levels) + '].\n'
    body += 'Definition comp_aliases : list (list ascii * list ascii) := %s.\n' % clist('(%s, %s)' % (cstr(a), cstr(w)) for n, b, ops in levels for w, a in ops if a)

    # order in which the classes of a tag are tried
    from rogw.tranp.providers.syntax.resolver import symbol_mapping
    settings = symbol_mapping()
    for tag in ('function_def', 'class_def'):
        names = [c.__name__ for c, tags in settings.symbols.items() if tag in tags]
        assert names, tag
        body += 'Definition %s_order : list (list ascii) := %s.\n' % (tag, clist(cstr(n) for n in names))
    emit('GenLadder', 'g_ladder.py', 'data/grammar.lark (expression ladder) and rogw/tranp/providers/syntax/resolver.py (class order)', body)


if __name__ == '__main__':
    main()
