"""G7a: BlockParser._all_pair (C18), read by introspection."""

from common import *


@fail_closed('GenBlock')
def main():
    from rogw.tranp.view.helper.block import BlockParser
    pairs = BlockParser._all_pair
    assert isinstance(pairs, list) and all(isinstance(p, str) and len(p) == 2 for p in pairs), 'unexpected _all_pair shape'
    body = 'Definition all_pair : list (ascii * ascii) := %s.\n' % clist('(%s, %s)' % (cchar(p[0]), cchar(p[1])) for p in pairs)
    body += 'Example all_pair_len : length all_pair = %d. Proof. reflexivity. Qed.\n' % len(pairs)
    emit('GenBlock', 'g_block.py', 'rogw/tranp/view/helper/block.py (_all_pair)', body)


if __name__ == '__main__':
    main()
