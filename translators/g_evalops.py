"""G7b: operator tables of the constant folder (LiteralEvaluator.ArthmeticOps / BitwiseOps), by introspection."""
from common import *


@fail_closed('GenEvalOps')
def main():
    from rogw.tranp.implements.transpiler.evaluator import LiteralEvaluator as L
    for ops in (L.ArthmeticOps, L.BitwiseOps):
        assert isinstance(ops, list) and all(isinstance(o, str) for o in ops)
    body = 'Definition arith_ops : list (list ascii) := %s.\n' % clist(cstr(o) for o in L.ArthmeticOps)
    body += 'Definition bitwise_ops : list (list ascii) := %s.\n' % clist(cstr(o) for o in L.BitwiseOps)
    body += 'Definition allow_ops : list (list ascii) := %s.\n' % clist(cstr(o) for o in L.AllowOps)
    emit('GenEvalOps', 'g_evalops.py', 'rogw/tranp/implements/transpiler/evaluator.py (ArthmeticOps, BitwiseOps, AllowOps)', body)


if __name__ == '__main__':
    main()
